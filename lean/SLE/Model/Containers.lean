/-
M6 — models of `src/data/vector_map.rs` (`VectorMap`) and `src/data/disjoint_set.rs`
(`DisjointSet`), with `Combine` as an abstract monoid.  Core only.
-/
namespace SLE.Containers

inductive Fault where
  | sizeUnderflow      -- `self.size -= 1` on `size = 0` (overflow-checked subtraction panics)
  | outOfFuel          -- only in fuel-bounded model loops; proved unreachable under the invariant
deriving DecidableEq, Repr

/-! ### VectorMap -/

structure VMap (V : Type) where
  data : List (Option V) := []
  size : Nat := 0
deriving Repr

namespace VMap
variable {V : Type}

def empty : VMap V := {}

/-- `while index >= self.data.len() { self.data.push(None) }`. -/
def padTo (l : List (Option V)) (k : Nat) : List (Option V) :=
  l ++ List.replicate (k + 1 - l.length) none

/-- `VectorMap::get`. -/
def get (m : VMap V) (k : Nat) : Option V := (m.data[k]?).join

/-- `VectorMap::insert` (size counts distinct present keys: an overwrite keeps it). -/
def insert (m : VMap V) (k : Nat) (v : V) : VMap V :=
  let d := padTo m.data k
  { data := d.set k (some v),
    size := if ((d[k]?).join).isSome then m.size else m.size + 1 }

/-- `VectorMap::remove`; the overflow-checked `size -= 1` is an explicit fault. -/
def remove (m : VMap V) (k : Nat) : Except Fault (VMap V × Option V) :=
  if k < m.data.length then
    match (m.data[k]?).join with
    | some v =>
      if m.size = 0 then .error .sizeUnderflow
      else .ok ({ data := m.data.set k none, size := m.size - 1 }, some v)
    | none => .ok (m, none)
  else .ok (m, none)

def len (m : VMap V) : Nat := m.size
def isEmpty (m : VMap V) : Bool := m.size == 0

def iterFrom : Nat → List (Option V) → List (Nat × V)
  | _, [] => []
  | i, none :: r => iterFrom (i + 1) r
  | i, some v :: r => (i, v) :: iterFrom (i + 1) r

/-- `VectorMap::iter` (index order). -/
def iter (m : VMap V) : List (Nat × V) := iterFrom 0 m.data

/-- `VectorMap::indices`. -/
def indices (m : VMap V) : List Nat := m.iter.map (·.1)

def countSome : List (Option V) → Nat
  | [] => 0
  | none :: r => countSome r
  | some _ :: r => countSome r + 1

/-- Representation invariant: the `size` field is the number of occupied cells. -/
def WF (m : VMap V) : Prop := m.size = countSome m.data

end VMap

/-! ### DisjointSet -/

/-- `Combine` as used by the forest: an operation and its identity. -/
structure Monoid (D : Type) where
  combine : D → D → D
  identity : D
  default : D            -- `Data::default()` used by `sets`

structure DS (D : Type) where
  reps : VMap Nat := {}
  data : VMap D := {}

namespace DS
variable {D : Type}

def empty : DS D := {}

/-- `DisjointSet::insert`: registers `v` as its own representative unless already present. -/
def insert (s : DS D) (v : Nat) : DS D :=
  match s.reps.get v with
  | some _ => s
  | none => { s with reps := s.reps.insert v v }

/-- `DisjointSet::find` with path compression.  The Rust recursion follows parent links;
the model takes fuel (the number of cells + 2 always suffices under the forest invariant). -/
def findFuel : Nat → VMap Nat → Nat → Except Fault (VMap Nat × Nat)
  | 0, _, _ => .error .outOfFuel
  | f + 1, r, v =>
    match r.get v with
    | some rep =>
      if rep = v then .ok (r, v)
      else
        match findFuel f r rep with
        | .error e => .error e
        | .ok (r', root) => .ok (r'.insert v root, root)
    | none => findFuel f (r.insert v v) v

def fuelFor (r : VMap Nat) (v : Nat) : Nat := r.data.length + v + 3

def find (s : DS D) (v : Nat) : Except Fault (DS D × Nat) :=
  match findFuel (fuelFor s.reps v) s.reps v with
  | .error e => .error e
  | .ok (r, root) => .ok ({ s with reps := r }, root)

/-- `DisjointSet::union`. -/
def union (M : Monoid D) (s : DS D) (a b : Nat) : Except Fault (DS D) :=
  match find s a with
  | .error e => .error e
  | .ok (s1, ra) =>
    match find s1 b with
    | .error e => .error e
    | .ok (s2, rb) =>
      if ra = rb then .ok s2
      else
        let va := (s2.data.get ra).getD M.identity
        match s2.data.remove rb with
        | .error e => .error e
        | .ok (d1, vb) =>
          let vb := vb.getD M.identity
          .ok { reps := s2.reps.insert rb ra, data := d1.insert ra (M.combine va vb) }

/-- `DisjointSet::add_data`. -/
def addData (M : Monoid D) (s : DS D) (v : Nat) (d : D) : Except Fault (DS D) :=
  match find s v with
  | .error e => .error e
  | .ok (s1, root) =>
    match s1.data.remove root with
    | .error e => .error e
    | .ok (d1, prev) => .ok { s1 with data := d1.insert root (M.combine (prev.getD M.identity) d) }

/-- `DisjointSet::get_data`. -/
def getData (s : DS D) (v : Nat) : Except Fault (DS D × Option D) :=
  match find s v with
  | .error e => .error e
  | .ok (s1, root) => .ok (s1, s1.data.get root)

/-- `DisjointSet::set_data`. -/
def setData (s : DS D) (v : Nat) (d : D) : Except Fault (DS D) :=
  match find s v with
  | .error e => .error e
  | .ok (s1, root) => .ok { s1 with data := s1.data.insert root d }

/-- `DisjointSet::sets`: every root with its data, inserting `default` where missing. -/
def sets (M : Monoid D) (s : DS D) : DS D × List (Nat × D) :=
  let roots := (s.reps.iter.filter (fun (k, v) => k == v)).map (·.1)
  roots.foldl (fun (acc : DS D × List (Nat × D)) k =>
    match acc.1.data.get k with
    | some d => (acc.1, acc.2 ++ [(k, d)])
    | none => ({ acc.1 with data := acc.1.data.insert k M.default }, acc.2 ++ [(k, M.default)]))
    (s, [])

/-- `DisjointSet::values`. -/
def values (s : DS D) : List Nat := s.reps.indices

end DS

/-! ### Operation histories (line protocol of family `ds`) -/

inductive Op (D : Type) where
  | insert (v : Nat)
  | union (a b : Nat)
  | addData (v : Nat) (d : D)
  | setData (v : Nat) (d : D)
  | find (v : Nat)
  | getData (v : Nat)
  | sets
  | values

inductive Obs (D : Type) where
  | unit
  | root (r : Nat)
  | data (d : Option D)
  | sets (l : List (Nat × D))
  | values (l : List Nat)
  | fault (f : Fault)

def DS.step {D : Type} (M : Monoid D) (s : DS D) : Op D → DS D × Obs D
  | .insert v => (s.insert v, .unit)
  | .union a b => match s.union M a b with
    | .ok s' => (s', .unit) | .error f => (s, .fault f)
  | .addData v d => match s.addData M v d with
    | .ok s' => (s', .unit) | .error f => (s, .fault f)
  | .setData v d => match s.setData v d with
    | .ok s' => (s', .unit) | .error f => (s, .fault f)
  | .find v => match s.find v with
    | .ok (s', r) => (s', .root r) | .error f => (s, .fault f)
  | .getData v => match s.getData v with
    | .ok (s', d) => (s', .data d) | .error f => (s, .fault f)
  | .sets => let (s', l) := s.sets M; (s', .sets l)
  | .values => (s, .values s.values)

/-! ### The naive partition model -/

/-- A class: its members (head = the element the forest would call the root is *not*
tracked; roots are compared only up to "same class") and its accumulated data. -/
structure Cls (D : Type) where
  members : List Nat
  data : Option D

/-- Naive model: a list of disjoint classes. -/
abbrev Spec (D : Type) := List (Cls D)

namespace Spec
variable {D : Type}

def classOf (s : Spec D) (v : Nat) : Option (Cls D) := s.find? (fun c => c.members.contains v)

def ensure (s : Spec D) (v : Nat) : Spec D :=
  match classOf s v with
  | some _ => s
  | none => s ++ [{ members := [v], data := none }]

def without (s : Spec D) (v : Nat) : Spec D := s.filter (fun c => !c.members.contains v)

def union (M : Monoid D) (s : Spec D) (a b : Nat) : Spec D :=
  let s := ensure (ensure s a) b
  match classOf s a, classOf s b with
  | some ca, some cb =>
    if ca.members.contains b then s
    else
      let d := match ca.data, cb.data with
        | none, none => M.combine M.identity M.identity
        | some x, none => M.combine x M.identity
        | none, some y => M.combine M.identity y
        | some x, some y => M.combine x y
      (without (without s a) b) ++ [{ members := ca.members ++ cb.members, data := some d }]
  | _, _ => s

def addData (M : Monoid D) (s : Spec D) (v : Nat) (d : D) : Spec D :=
  let s := ensure s v
  s.map (fun c => if c.members.contains v then
    { c with data := some (M.combine (c.data.getD M.identity) d) } else c)

def setData (s : Spec D) (v : Nat) (d : D) : Spec D :=
  let s := ensure s v
  s.map (fun c => if c.members.contains v then { c with data := some d } else c)

def getData (s : Spec D) (v : Nat) : Option D := ((classOf (ensure s v) v).map (·.data)).join

def sameClass (s : Spec D) (a b : Nat) : Bool :=
  match classOf s a with
  | some c => c.members.contains b
  | none => a == b

end Spec

end SLE.Containers
