import SLE.Model.MergeLaws
/-
M7 (layout part) — `StorageLayout::add` (`src/layout.rs:23-30`): push, then a *stable* sort by
`(index, offset)`; `itertools::unique`; and the per-class fold of `unification.rs:86-104` as a
plain left fold of `merge` outcomes on the packed-free fragment.
-/
namespace SLE.Layout
open SLE SLE.MergeLaws

/-- A layout entry: slot index (256-bit), bit offset, and whatever it carries. -/
structure Entry (α : Type) where
  index : Nat
  offset : Nat
  typ : α
deriving Repr

def keyLe {α : Type} (a b : Entry α) : Bool :=
  a.index < b.index || (a.index == b.index && a.offset ≤ b.offset)

def keyLt {α : Type} (a b : Entry α) : Bool :=
  a.index < b.index || (a.index == b.index && a.offset < b.offset)

/-- insert `e` after every entry whose key is `≤` its key (what a stable sort does to the
element pushed last). -/
def insertStable {α : Type} (e : Entry α) : List (Entry α) → List (Entry α)
  | [] => [e]
  | x :: r => if keyLt e x then e :: x :: r else x :: insertStable e r

/-- `StorageLayout::add`: `slots.push(slot); slots.sort_by_key(|s| (s.index, s.offset))`.
On an already sorted vector a stable sort places the new element after the existing entries with
an equal key. -/
def add {α : Type} (l : List (Entry α)) (e : Entry α) : List (Entry α) := insertStable e l

/-- the layout loop: `add` every produced entry in turn -/
def buildLayout {α : Type} (es : List (Entry α)) : List (Entry α) := es.foldl add []

def Sorted {α : Type} (l : List (Entry α)) : Prop := l.Pairwise (fun a b => keyLe a b = true)

def DistinctKeys {α : Type} (l : List (Entry α)) : Prop :=
  l.Pairwise (fun a b => ¬ (a.index = b.index ∧ a.offset = b.offset))

/-- `Itertools::unique`: keep the first occurrence of each element. -/
def unique {α : Type} [BEq α] (l : List α) : List α :=
  l.foldl (fun acc x => if acc.contains x then acc else acc ++ [x]) []

/-- The per-class fold: evidence list → outcome (expression, accumulated equalities). -/
def foldMerge : List TE → Option Outcome
  | [] => none
  | first :: rest =>
    some (rest.foldl (fun (acc : Outcome) e => let o := outcome acc.1 e; (o.1, acc.2 ++ o.2)) (first, []))

/-- No three (not necessarily adjacent, in any arrangement) pieces of evidence fall in the
region where the pinned `merge` is not associative. -/
def NoBadTriple (l : List TE) : Prop :=
  ∀ a ∈ l, ∀ b ∈ l, ∀ c ∈ l, Bad a b c = false

end SLE.Layout
