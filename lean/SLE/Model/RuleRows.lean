import SLE.Model.TC
/-
What registration plus the sixteen inference rules make of one value, in the numeric form of
`Gen/RuleTable.lean` (the table is regenerated on every run by executing the current code on a
probe for every node kind and every shape the rules look for; `Props/C04.lean` has the
kernel-decided theorem that the model reproduces every row).
-/
namespace SLE.TC
open SLE SLE.SV

def useIdx : WordUse → Nat
  | .bytes => 0 | .numeric => 1 | .unsignedNumeric => 2 | .signedNumeric => 3
  | .bool => 4 | .address => 5 | .selector => 6 | .function => 7

/-- numeric encoding of a type expression (mirrors `tables.rs enc_te`) -/
def encTE : TE → List Nat
  | .any => [0]
  | .equal id => [1, id]
  | .word w u => [2, (match w with | some x => x + 1 | none => 0), useIdx u]
  | .bytes => [3]
  | .fixedArray e l => [4, e, l]
  | .mapping k v => [5, k, v]
  | .dynamicArray e => [6, e]
  | .packed ts s => [7, (if s then 1 else 0), ts.length] ++ ts.flatMap (fun x => [x.typ, x.offset, x.size])
  | .conflict => [8]

def lexLt : List Nat → List Nat → Bool
  | [], [] => false
  | [], _ :: _ => true
  | _ :: _, [] => false
  | a :: as, b :: bs => a < b || (a == b && lexLt as bs)

def rowLt (a b : Nat × List Nat) : Bool := a.1 < b.1 || (a.1 == b.1 && lexLt a.2 b.2)

def insertRow (x : Nat × List Nat) : List (Nat × List Nat) → List (Nat × List Nat)
  | [] => [x]
  | y :: r => if rowLt x y then x :: y :: r else y :: insertRow x r

/-- register the value, apply the rules to its root, list every judgement of the state, sorted -/
def ruleRows (v : SV) : Nat × List (Nat × List Nat) :=
  let (st, root) := register (nodeCount v + 1) {} v
  let st' := applyRules st root
  let sets := infSets st'.judgements
  let rows := sets.flatMap (fun (p : Nat × List TE) => p.2.map (fun e => (p.1, encTE e)))
  (st'.next, rows.foldr insertRow [])

end SLE.TC
