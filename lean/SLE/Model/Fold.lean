import SLE.Model.SV
/-
M3 — `constant_fold` (`src/vm/value/mod.rs`, `SymbolicValueData::constant_fold`) and the
denotation `eval` of a tree under an arbitrary interpretation of everything that is not one
of the 21 foldable operators.
-/
namespace SLE

/-- The 19 binary foldable operators, by node kind, as the *Rust* computes them on two
constants (argument order = kid order: `[dividend, divisor]`, `[value, exponent]`,
`[shift, value]`). -/
def knownBin : Kind → Option (Word → Word → Word)
  | .add => some Known.add
  | .multiply => some Known.mul
  | .subtract => some Known.sub
  | .divide => some Known.div
  | .signedDivide => some Known.signedDiv
  | .modulo => some Known.rem
  | .signedModulo => some Known.signedRem
  | .exp => some Known.exp
  | .lessThan => some Known.lt
  | .greaterThan => some Known.gt
  | .signedLessThan => some Known.signedLt
  | .signedGreaterThan => some Known.signedGt
  | .equals => some Known.eq
  | .and_ => some Known.and
  | .or_ => some Known.or
  | .xor_ => some Known.xor
  | .leftShift => some Known.shl
  | .rightShift => some Known.shr
  | .arithmeticRightShift => some Known.sar
  | _ => none

/-- The 2 unary foldable operators. -/
def knownUn : Kind → Option (Word → Word)
  | .isZero => some Known.isZero
  | .not_ => some Known.not
  | _ => none

/-- The same operators as the EVM defines them. -/
def specBin : Kind → Option (Word → Word → Word)
  | .add => some Spec.add
  | .multiply => some Spec.mul
  | .subtract => some Spec.sub
  | .divide => some Spec.div
  | .signedDivide => some Spec.sdiv
  | .modulo => some Spec.mod
  | .signedModulo => some Spec.smod
  | .exp => some Spec.exp
  | .lessThan => some Spec.lt
  | .greaterThan => some Spec.gt
  | .signedLessThan => some Spec.slt
  | .signedGreaterThan => some Spec.sgt
  | .equals => some Spec.eq
  | .and_ => some Spec.and
  | .or_ => some Spec.or
  | .xor_ => some Spec.xor
  | .leftShift => some Spec.shl
  | .rightShift => some Spec.shr
  | .arithmeticRightShift => some Spec.sar
  | _ => none

def specUn : Kind → Option (Word → Word)
  | .isZero => some Spec.isZero
  | .not_ => some Spec.not
  | _ => none

namespace SV

/-- What `constant_folder` does at one node whose kids are already folded. -/
def foldNode (k : Kind) (attrs : List Nat) (ks : List SV) : SV :=
  match knownBin k, ks with
  | some f, [a, b] =>
    (match a.asWord, b.asWord with
     | some x, some y => mkKnown (f x y)
     | _, _ => rebuild k attrs ks)
  | _, _ =>
    match knownUn k, ks with
    | some f, [a] =>
      (match a.asWord with
       | some x => mkKnown (f x)
       | none => rebuild k attrs ks)
    | _, _ => rebuild k attrs ks

mutual
/-- `constant_fold`. -/
def fold : SV → SV
  | .node k attrs ks _ => foldNode k attrs (foldList ks)
def foldList : List SV → List SV
  | [] => []
  | k :: ks => fold k :: foldList ks
end

/-- An interpretation of every node kind that is not a foldable operator or a constant:
opaque values, environment reads, hashes, storage reads, … as arbitrary functions of the
node's payload and of its evaluated children. -/
abbrev Interp := Kind → List Nat → List Word → Word

mutual
/-- The 256-bit word a tree denotes under `I`. -/
def eval (I : Interp) : SV → Word
  | .node k attrs ks _ =>
    let vs := evalList I ks
    match k, attrs with
    | .knownData, w :: _ => BitVec.ofNat 256 w
    | _, _ =>
      match specBin k, vs with
      | some f, [x, y] => f x y
      | _, _ =>
        match specUn k, vs with
        | some f, [x] => f x
        | _, _ => I k attrs vs
def evalList (I : Interp) : List SV → List Word
  | [] => []
  | k :: ks => eval I k :: evalList I ks
end

end SV
end SLE
