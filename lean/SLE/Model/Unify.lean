import SLE.Model.TE
import SLE.Model.Containers
/-
M5 — `unification::unify` (`src/tc/unification.rs:39-139`): the forest is initialised from the
typing judgements, then rounds fold every class's evidence with `merge` until a round makes no
progress.  Every place the Rust iterates a hash-based collection takes the order as a parameter
(`Orders`); C02 quantifies over them.
-/
namespace SLE.Unify
open SLE SLE.Containers SLE.Merge

/-- `InferenceSet` as a duplicate-free list. -/
def setInsert (s : List TE) (e : TE) : List TE := if s.contains e then s else s ++ [e]
def setUnion (a b : List TE) : List TE := b.foldl setInsert a

/-- `HashSet`'s `Combine` instance. -/
def setM : Monoid (List TE) := { combine := setUnion, identity := [], default := [] }

/-- The iteration orders the implementation leaves to its hash maps. -/
structure Orders where
  vars : List Nat → List Nat
  tes : List TE → List TE
  eqs : List (Nat × Nat) → List (Nat × Nat)
  judgements : List (Nat × TE) → List (Nat × TE)

def idOrders : Orders := ⟨id, id, id, id⟩

inductive UFault where
  | forest (f : Fault)
  | merge (f : MFault)
  | outOfFuel
deriving Repr

abbrev Forest := DS (List TE)

def dedup {α : Type} [BEq α] (l : List α) : List α := l.foldl (fun acc x => if acc.contains x then acc else acc ++ [x]) []

/-- Lines 39-57: insert every variable, then route `Equal` to `union` and everything else to
`add_data`. `infs v` is the inference set of `v` as recorded by `TypeCheckerState::infer`. -/
def initForest (o : Orders) (vars : List Nat) (infs : Nat → List TE) : Except UFault Forest :=
  let f0 : Forest := (o.vars vars).foldl (fun f v => f.insert v) {}
  (o.vars vars).foldlM (fun (f : Forest) v =>
    (o.tes (infs v)).foldlM (fun (f : Forest) e =>
      match e with
      | .equal id => (match f.union setM v id with | .ok f' => .ok f' | .error x => .error (.forest x))
      | e => (match f.addData setM v [e] with | .ok f' => .ok f' | .error x => .error (.forest x))) f) f0

structure RoundAcc where
  forest : Forest
  next : Nat
  eqs : List (Nat × Nat) := []
  judgements : List (Nat × TE) := []
  newVars : List Nat := []
  progress : Bool := false
  polls : Nat := 0            -- iterations that reached the polling check (C13)
  counter : Nat := 0

/-- Fold one class's evidence (lines 80-110). -/
def foldClass (root : Nat) (evidence : List TE) (next : Nat) :
    Except UFault (TE × Nat × List (Nat × Nat) × List (Nat × TE) × List Nat) :=
  match evidence with
  | [] => .error .outOfFuel   -- not called on empty evidence
  | first :: rest =>
    rest.foldlM (fun (acc : TE × Nat × List (Nat × Nat) × List (Nat × TE) × List Nat) e =>
      let (cur, next, eqs, js, nvs) := acc
      match merge cur e root next with
      | .error x => .error (.merge x)
      | .ok m => .ok (m.expr, m.next, eqs ++ m.eqs, js ++ m.judgements, nvs ++ m.newVars))
      (first, next, [], [], [])

/-- One round of the `loop` (lines 62-138). -/
def round (o : Orders) (f : Forest) (next counter : Nat) : Except UFault RoundAcc :=
  let (f1, sets) := f.sets setM
  let acc0 : RoundAcc := { forest := f1, next := next, counter := counter }
  let r : Except UFault RoundAcc := sets.foldlM (fun (acc : RoundAcc) (p : Nat × List TE) =>
    let (root, infs) := p
    let acc := { acc with polls := acc.polls + 1 }
    if infs.isEmpty then .ok acc
    else
      let ev := o.tes infs
      match foldClass root ev acc.next with
      | .error e => .error e
      | .ok (cur, next', eqs, js, nvs) =>
        match acc.forest.setData root [cur] with
        | .error x => .error (.forest x)
        | .ok f' =>
          .ok { acc with forest := f', next := next', eqs := acc.eqs ++ eqs,
                         judgements := acc.judgements ++ js, newVars := acc.newVars ++ nvs,
                         progress := acc.progress || ev.length > 1, counter := acc.counter + 1 }) acc0
  match r with
  | .error e => .error e
  | .ok acc =>
    let f2 := (o.vars (dedup acc.newVars)).foldl (fun f v => f.insert v) acc.forest
    let r3 : Except UFault Forest := (o.eqs (dedup acc.eqs)).foldlM (fun (f : Forest) (p : Nat × Nat) =>
      match f.union setM p.1 p.2 with | .ok f' => .ok f' | .error x => .error (UFault.forest x)) f2
    match r3 with
    | .error e => .error e
    | .ok f3 =>
      let r4 : Except UFault Forest := (o.judgements (dedup acc.judgements)).foldlM (fun (f : Forest) (p : Nat × TE) =>
        match f.addData setM p.1 [p.2] with | .ok f' => .ok f' | .error x => .error (UFault.forest x)) f3
      match r4 with
      | .error e => .error e
      | .ok f4 => .ok { acc with forest := f4 }

/-- `unify`: rounds until no progress; `fuel` bounds the number of rounds. Returns the forest,
the variable counter and the number of rounds run. -/
def unifyLoop (o : Orders) : Nat → Forest → Nat → Nat → Nat → Except UFault (Forest × Nat × Nat)
  | 0, _, _, _, _ => .error .outOfFuel
  | fuel + 1, f, next, counter, rounds =>
    match round o f next counter with
    | .error e => .error e
    | .ok acc =>
      if acc.progress then unifyLoop o fuel acc.forest acc.next acc.counter (rounds + 1)
      else .ok (acc.forest, acc.next, rounds + 1)

def unify (o : Orders) (fuel : Nat) (nvars : Nat) (infs : Nat → List TE) : Except UFault (Forest × Nat × Nat) :=
  match initForest o (List.range nvars) infs with
  | .error e => .error e
  | .ok f => unifyLoop o fuel f nvars 0 0

end SLE.Unify
