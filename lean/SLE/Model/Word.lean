/-
M1 — 256-bit words.
`Spec.*`  : the EVM operations written from the Yellow Paper in `Nat`/`Int` arithmetic
            (NOT borrowed from `BitVec`'s SMT-LIB conventions).
`Known.*` : model of `KnownWord`'s operators in `src/vm/value/known.rs`, following the
            shape of the Rust code (wrapping ops, explicit zero-divisor cases, `I256`
            truncating division, guarded shifts, square-and-multiply exponentiation).
Core only.
-/
namespace SLE

abbrev Word := BitVec 256

namespace Word
def ofBool (b : Bool) : Word := if b then 1#256 else 0#256
def isNeg (a : Word) : Bool := decide (2 ^ 255 ≤ a.toNat)
end Word

/-! ### The EVM, from the Yellow Paper -/
namespace Spec
open Word

def add (a b : Word) : Word := BitVec.ofNat 256 (a.toNat + b.toNat)
def mul (a b : Word) : Word := BitVec.ofNat 256 (a.toNat * b.toNat)
def sub (a b : Word) : Word := BitVec.ofInt 256 ((a.toNat : Int) - (b.toNat : Int))
def div (a b : Word) : Word := if b.toNat = 0 then 0#256 else BitVec.ofNat 256 (a.toNat / b.toNat)
def mod (a b : Word) : Word := if b.toNat = 0 then 0#256 else BitVec.ofNat 256 (a.toNat % b.toNat)
/-- SDIV: 0 for a zero divisor; −2²⁵⁵ for −2²⁵⁵ ÷ −1; otherwise sgn(a÷b)·⌊|a|÷|b|⌋. -/
def sdiv (a b : Word) : Word :=
  if b.toInt = 0 then 0#256
  else if a.toInt = -(2 ^ 255 : Int) ∧ b.toInt = -1 then BitVec.ofInt 256 (-(2 ^ 255 : Int))
  else BitVec.ofInt 256 (a.toInt.sign * b.toInt.sign * ((a.toInt.natAbs / b.toInt.natAbs : Nat) : Int))
/-- SMOD: 0 for a zero divisor; otherwise sgn(a)·(|a| mod |b|). -/
def smod (a b : Word) : Word :=
  if b.toInt = 0 then 0#256
  else BitVec.ofInt 256 (a.toInt.sign * ((a.toInt.natAbs % b.toInt.natAbs : Nat) : Int))
def exp (a b : Word) : Word := BitVec.ofNat 256 (a.toNat ^ b.toNat)
def lt (a b : Word) : Word := ofBool (decide (a.toNat < b.toNat))
def gt (a b : Word) : Word := ofBool (decide (a.toNat > b.toNat))
def slt (a b : Word) : Word := ofBool (decide (a.toInt < b.toInt))
def sgt (a b : Word) : Word := ofBool (decide (a.toInt > b.toInt))
def eq (a b : Word) : Word := ofBool (decide (a = b))
def isZero (a : Word) : Word := ofBool (decide (a.toNat = 0))
def and (a b : Word) : Word := a &&& b
def or (a b : Word) : Word := a ||| b
def xor (a b : Word) : Word := a ^^^ b
def not (a : Word) : Word := BitVec.ofNat 256 (2 ^ 256 - 1 - a.toNat)
/-- SHL: (value · 2^shift) mod 2²⁵⁶, which is 0 for shift ≥ 256. -/
def shl (shift value : Word) : Word :=
  if shift.toNat < 256 then BitVec.ofNat 256 (value.toNat * 2 ^ shift.toNat) else 0#256
/-- SHR: ⌊value ÷ 2^shift⌋, which is 0 for shift ≥ 256. -/
def shr (shift value : Word) : Word :=
  if shift.toNat < 256 then BitVec.ofNat 256 (value.toNat / 2 ^ shift.toNat) else 0#256
/-- SAR: ⌊signed value ÷ 2^shift⌋ (floor), i.e. 0 or −1 for shift ≥ 256. -/
def sar (shift value : Word) : Word :=
  if shift.toNat < 256 then BitVec.ofInt 256 (value.toInt / (2 ^ shift.toNat : Int))
  else if value.toInt < 0 then BitVec.ofInt 256 (-1) else 0#256

end Spec

/-! ### `KnownWord` as written in the Rust -/
namespace Known
open Word

def add (a b : Word) : Word := a + b                  -- wrapping_add
def mul (a b : Word) : Word := a * b                  -- wrapping_mul
def sub (a b : Word) : Word := a - b                  -- wrapping_sub
def div (a b : Word) : Word := if b = 0#256 then 0#256 else BitVec.ofNat 256 (a.toNat / b.toNat)
def rem (a b : Word) : Word := if b = 0#256 then 0#256 else BitVec.ofNat 256 (a.toNat % b.toNat)
/-- `I256::wrapping_div`: truncating division, wrapping on `MIN / -1`. -/
def signedDiv (a b : Word) : Word :=
  if b.toInt = 0 then 0#256 else BitVec.ofInt 256 (Int.tdiv a.toInt b.toInt)
/-- `I256::wrapping_rem`: remainder with the dividend's sign. -/
def signedRem (a b : Word) : Word :=
  if b.toInt = 0 then 0#256 else BitVec.ofInt 256 (Int.tmod a.toInt b.toInt)

/-- The square-and-multiply loop of `KnownWord::exp` over the full 256-bit exponent. -/
def expLoop : Nat → Word → Word → Word → Word
  | 0, result, _, _ => result
  | fuel + 1, result, base, e =>
    if e = 0#256 then result
    else expLoop fuel (if e.toNat % 2 = 1 then result * base else result) (base * base)
           (BitVec.ofNat 256 (e.toNat / 2))
def exp (a b : Word) : Word := expLoop 256 1#256 a b

def lt (a b : Word) : Word := ofBool (decide (a.toNat < b.toNat))
def gt (a b : Word) : Word := ofBool (decide (a.toNat > b.toNat))
def signedLt (a b : Word) : Word := ofBool (decide (a.toInt < b.toInt))
def signedGt (a b : Word) : Word := ofBool (decide (a.toInt > b.toInt))
def eq (a b : Word) : Word := ofBool (decide (a = b))
def isZero (a : Word) : Word := ofBool (decide (a = 0#256))
def and (a b : Word) : Word := a &&& b
def or (a b : Word) : Word := a ||| b
def xor (a b : Word) : Word := a ^^^ b
def not (a : Word) : Word := ~~~a
/-- `Shl`: zero for amounts ≥ 256, otherwise the ethnum shift. -/
def shl (shift value : Word) : Word :=
  if 256 ≤ shift.toNat then 0#256 else value <<< shift.toNat
def shr (shift value : Word) : Word :=
  if 256 ≤ shift.toNat then 0#256 else value >>> shift.toNat
/-- `sar`: sign fill for amounts ≥ 256, otherwise the `I256` arithmetic shift. -/
def sar (shift value : Word) : Word :=
  if 256 ≤ shift.toNat then (if isNeg value then BitVec.allOnes 256 else 0#256)
  else value.sshiftRight shift.toNat

end Known
end SLE
