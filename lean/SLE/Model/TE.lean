/-
M5 — type expressions (`src/tc/expression.rs`) and `unification::merge`
(`src/tc/unification.rs`).  Type variables are their indices.  Conflict payloads
(`conflicts`, `reasons`) are explanations only: no arm of `merge` inspects them, `AbiType`
drops them from equality, and the properties compare outcomes up to them — so the model's
`conflict` carries none.  Core only.
-/
namespace SLE

inductive WordUse where
  | bytes | numeric | unsignedNumeric | signedNumeric | bool | address | selector | function
deriving DecidableEq, Repr, Inhabited

namespace WordUse

def all : List WordUse := [bytes, numeric, unsignedNumeric, signedNumeric, bool, address, selector, function]

def idx : WordUse → Nat
  | bytes => 0 | numeric => 1 | unsignedNumeric => 2 | signedNumeric => 3
  | bool => 4 | address => 5 | selector => 6 | function => 7

/-- `WordUse::size`. -/
def size : WordUse → Option Nat
  | bool => some 8 | address => some 160 | selector => some 32 | function => some 192
  | _ => none

def isDefinitelySigned : WordUse → Bool
  | signedNumeric => true
  | _ => false

/-- `WordUse::merge`. -/
def merge (a b : WordUse) : Option WordUse :=
  if a = b then some a else
  match a, b with
  | bytes, o => some o
  | o, bytes => some o
  | numeric, unsignedNumeric => some unsignedNumeric
  | unsignedNumeric, numeric => some unsignedNumeric
  | numeric, signedNumeric => some signedNumeric
  | signedNumeric, numeric => some signedNumeric
  | numeric, address => some address
  | address, numeric => some address
  | unsignedNumeric, address => some address
  | address, unsignedNumeric => some address
  | _, _ => none

end WordUse

structure Span where
  typ : Nat
  offset : Nat
  size : Nat
deriving DecidableEq, Repr, Inhabited

inductive TE where
  | any
  | equal (id : Nat)
  | word (width : Option Nat) (usage : WordUse)
  | bytes
  | fixedArray (element : Nat) (length : Nat)
  | mapping (key value : Nat)
  | dynamicArray (element : Nat)
  | packed (types : List Span) (isStruct : Bool)
  | conflict
deriving DecidableEq, Repr, Inhabited

/-- What a `merge` returns (`struct Merge`) plus the type-variable counter after it. -/
structure MergeOut where
  expr : TE
  eqs : List (Nat × Nat) := []
  judgements : List (Nat × TE) := []
  newVars : List Nat := []
  next : Nat
deriving Repr

inductive MFault where
  | equalityInMerge     -- the two `panic!("Equalities should not exist when unifying")` arms
deriving DecidableEq, Repr

namespace Merge

def insertSorted (x : Nat) : List Nat → List Nat
  | [] => [x]
  | y :: r => if x < y then x :: y :: r else if x = y then y :: r else y :: insertSorted x r

/-- `.unique().sorted()` of the span boundaries. -/
def boundaries (ts : List Span) : List Nat :=
  (ts.flatMap (fun s => [s.offset, s.offset + s.size])).foldl (fun acc x => insertSorted x acc) []

def insertSpanBy (key : Span → Nat × Nat) (s : Span) : List Span → List Span
  | [] => [s]
  | t :: r =>
    let ks := key s; let kt := key t
    if ks.1 < kt.1 ∨ (ks.1 = kt.1 ∧ ks.2 ≤ kt.2) then s :: t :: r else t :: insertSpanBy key s r

/-- stable sort by `(offset, size)` (`sorted_by_key`). -/
def sortSpans (ts : List Span) : List Span :=
  ts.foldr (fun s acc => insertSpanBy (fun x => (x.offset, x.size)) s acc) []

/-- stable sort by `offset` only. -/
def sortSpansByOffset (ts : List Span) : List Span :=
  ts.foldr (fun s acc => insertSpanBy (fun x => (x.offset, 0)) s acc) []

/-- consecutive boundary pairs, each with a fresh variable: `(tv, start, end)`. -/
def newSpans : Nat → List Nat → List (Nat × Nat × Nat)
  | next, a :: b :: r => (next, a, b) :: newSpans (next + 1) (b :: r)
  | _, _ => []

/-- `process_spans` for one input span: the new spans lying inside it. -/
def corresponding (spans : List (Nat × Nat × Nat)) (s : Span) : List Span :=
  ((spans.dropWhile (fun (_, st, _) => st < s.offset)).takeWhile
      (fun (_, _, en) => en ≤ s.offset + s.size)).map (fun (ty, st, en) => ⟨ty, st, en - st⟩)

def processSpans (spans : List (Nat × Nat × Nat)) (input : List Span) :
    List (Nat × Nat) × List (Nat × TE) :=
  (sortSpans input).foldl (fun (acc : List (Nat × Nat) × List (Nat × TE)) s =>
    let c := corresponding spans s
    match c with
    | [one] => (acc.1 ++ [(s.typ, one.typ)], acc.2)
    | _ => (acc.1, acc.2 ++ [(s.typ, TE.packed (c.map (fun x => ⟨x.typ, x.offset - s.offset, x.size⟩)) false)]))
    ([], [])

def packedBytesOk (types : List Span) : Bool :=
  match types with
  | [] => true
  | [t] => (t.offset == 0 && t.size == 1) || (t.offset == 1 && t.size == 7) || (t.offset == 8 && t.size == 248)
  | [_, _] =>
    match sortSpansByOffset types with
    | [f, s] =>
      (f.offset == 0 && f.size == 1 && s.offset == 1 && s.size == 7) ||
      (f.offset == 0 && f.size == 1 && s.offset == 8 && s.size == 248) ||
      (f.offset == 1 && f.size == 7 && s.offset == 8 && s.size == 248)
    | _ => false
  | [_, _, _] =>
    match sortSpansByOffset types with
    | [f, s, t] => f.offset == 0 && f.size == 1 && s.offset == 1 && s.size == 7 && t.offset == 8 && t.size == 248
    | _ => false
  | _ => false

def out (e : TE) (next : Nat) : Except MFault MergeOut := .ok { expr := e, next := next }

def packedWord (l : TE) (types : List Span) (width : Option Nat) (usage : WordUse)
    (parent next : Nat) : Except MFault MergeOut :=
  let r := TE.word width usage
  if types.isEmpty then out r next
  else match usage with
    | .unsignedNumeric | .numeric | .bytes =>
      (match width with
       | none => out l next
       | some w =>
         if w = 256 then out l next
         else .ok { expr := l, judgements := [(parent, .packed [⟨next, 0, w⟩] false)],
                    newVars := [next], next := next + 1 })
    | _ =>
      match width, types with
      | some w, first :: _ =>
        if first.offset = 0 then
          if first.size = w then .ok { expr := l, judgements := [(first.typ, r)], next := next }
          else out .conflict next
        else out .conflict next
      | _, _ => out .conflict next

def packedPacked (tl : List Span) (sl : Bool) (tr : List Span) (sr : Bool) (next : Nat) :
    Except MFault MergeOut :=
  let isStruct := sr || sl
  if tl.isEmpty then out (.packed tr isStruct) next
  else if tr.isEmpty then out (.packed tl isStruct) next
  else
    let bs := boundaries (tl ++ tr)
    let spans := newSpans next bs
    let (e1, j1) := processSpans spans tl
    let (e2, j2) := processSpans spans tr
    .ok { expr := .packed (spans.map (fun (ty, st, en) => ⟨ty, st, en - st⟩)) isStruct,
          eqs := e1 ++ e2, judgements := j1 ++ j2,
          newVars := spans.map (·.1), next := next + spans.length }

/-- `unification::merge(left, right, parent_tv, state)`; `next` is the type-variable counter. -/
def merge (l r : TE) (parent next : Nat) : Except MFault MergeOut :=
  if l = r then out l next
  else match l, r with
  | .equal _, _ => .error .equalityInMerge
  | _, .equal _ => .error .equalityInMerge
  | .conflict, _ => out .conflict next
  | _, .conflict => out .conflict next
  | .word wl ul, .word wr ur =>
    (match wl, wr with
     | some a, some b =>
       if a = b then (match ul.merge ur with
         | some u => out (.word (some a) u) next
         | none => out .conflict next)
       else out .conflict next
     | some a, none => (match ul.merge ur with
         | some u => out (.word (some a) u) next
         | none => out .conflict next)
     | none, some b => (match ul.merge ur with
         | some u => out (.word (some b) u) next
         | none => out .conflict next)
     | none, none => (match ul.merge ur with
         | some u => out (.word none u) next
         | none => out .conflict next))
  | .word _ u, .bytes => if !u.isDefinitelySigned then out .bytes next else out .conflict next
  | .bytes, .word _ u => if !u.isDefinitelySigned then out .bytes next else out .conflict next
  | .dynamicArray _, .bytes => out .bytes next
  | .bytes, .dynamicArray _ => out .bytes next
  | .dynamicArray _, .packed ts _ => if packedBytesOk ts then out .bytes next else out .conflict next
  | .bytes, .packed ts _ => if packedBytesOk ts then out .bytes next else out .conflict next
  | .packed ts _, .dynamicArray _ => if packedBytesOk ts then out .bytes next else out .conflict next
  | .packed ts _, .bytes => if packedBytesOk ts then out .bytes next else out .conflict next
  | .word _ u, .dynamicArray e => if u.isDefinitelySigned then out .conflict next else out (.dynamicArray e) next
  | .dynamicArray e, .word _ u => if u.isDefinitelySigned then out .conflict next else out (.dynamicArray e) next
  | .dynamicArray a, .dynamicArray b => .ok { expr := .dynamicArray a, eqs := [(a, b)], next := next }
  | .fixedArray a la, .fixedArray b lb =>
    if la = lb then .ok { expr := .fixedArray a la, eqs := [(a, b)], next := next }
    else out .conflict next
  | .mapping k1 v1, .mapping k2 v2 => .ok { expr := .mapping k1 v1, eqs := [(k1, k2), (v1, v2)], next := next }
  | .packed tl sl, .packed tr sr => packedPacked tl sl tr sr next
  | .word w u, .packed ts s => packedWord (.packed ts s) ts w u parent next
  | .packed ts s, .word w u => packedWord (.packed ts s) ts w u parent next
  | x, .any => out x next
  | .any, x => out x next
  | _, _ => out .conflict next

end Merge
end SLE
