/-
M9 — the watchdog polling discipline shared by every monitored loop
(`vm/mod.rs:146-160`, the four bulk-copy loops and `store_return_data`, `tc/mod.rs` lift / assign /
infer / layout loops, `tc/unification.rs:59-78`): `if counter % every == 0 && wd.should_stop()`.
The watchdog is any function of the index of the poll.  Core only.
-/
namespace SLE.Poll

/-- Result of a monitored loop: final state and polls issued so far, or stopped. -/
inductive LoopRes (σ : Type) where
  | done (s : σ) (polls : Nat)
  | stopped (polls : Nat)
deriving Repr

/-- A loop with a counter that polls when `counter % every == 0`.
`polls` = number of polls issued before this loop; `wd k` = the answer to poll number `k`. -/
def pollLoop {σ α : Type} (every : Nat) (wd : Nat → Bool) (body : σ → α → σ) :
    List α → Nat → Nat → σ → LoopRes σ
  | [], _, polls, s => .done s polls
  | x :: xs, counter, polls, s =>
    if counter % every = 0 then
      if wd polls then .stopped (polls + 1)
      else pollLoop every wd body xs (counter + 1) (polls + 1) (body s x)
    else pollLoop every wd body xs (counter + 1) polls (body s x)

/-- The iterations (0-based) of an `n`-iteration counter-from-zero loop that poll. -/
def polledIdx (every n : Nat) : List Nat := (List.range n).filter (fun i => i % every = 0)

/-- One iteration of the VM main loop: the lengths (in 32-byte words) of the bulk-copy loops the
executed opcode runs (usually none). -/
abbrev VMIter := List Nat

/-- How the machine reacts to a stop raised *inside* a copy loop: the opcode returns
`Err(StoppedByWatchdog)`, the VM records it and kills the thread, and the main loop goes on —
so the stop surfaces either at the next main-loop poll or, if the machine runs out of threads
first, as one of the errors `execute` returns. -/
structure VMState where
  polls : Nat
  stopRecorded : Bool      -- an `Err(StoppedByWatchdog)` sits in the error buffer

/-- A copy loop inside an opcode: polls like any loop; a stop is recorded, not propagated. -/
def copyLoop (every : Nat) (wd : Nat → Bool) (len : Nat) (st : VMState) : VMState :=
  match pollLoop every wd (fun (u : Unit) (_ : Unit) => u) (List.replicate len ()) 0 st.polls () with
  | .done _ p => { st with polls := p }
  | .stopped p => { polls := p, stopRecorded := true }

inductive Outcome where
  | finished (polls : Nat)            -- ran to completion, nothing stopped
  | stopped (polls : Nat)             -- `Err(StoppedByWatchdog)` returned by a main loop
  | failedWithStop (polls : Nat)      -- completed the loop but the error buffer holds the stop
deriving Repr, DecidableEq

/-- The VM main loop over a schedule of iterations (the schedule after a recorded stop may be
any other schedule — killing a thread changes what runs next — which is why it is a parameter
of the theorems rather than derived). -/
def vmLoop (every : Nat) (wd : Nat → Bool) : List VMIter → Nat → VMState → Outcome
  | [], _, st => if st.stopRecorded then .failedWithStop st.polls else .finished st.polls
  | it :: rest, counter, st =>
    if counter % every = 0 then
      if wd st.polls then .stopped (st.polls + 1)
      else
        let st1 := it.foldl (fun s len => copyLoop every wd len s) { st with polls := st.polls + 1 }
        vmLoop every wd rest (counter + 1) st1
    else
      let st1 := it.foldl (fun s len => copyLoop every wd len s) st
      vmLoop every wd rest (counter + 1) st1

/-- The type-checking phases after execution: lift, assign, infer, (unification rounds,) layout —
each a plain counter-from-zero monitored loop of the given length. -/
def phases (every : Nat) (wd : Nat → Bool) : List Nat → Nat → Outcome
  | [], polls => .finished polls
  | n :: rest, polls =>
    match pollLoop every wd (fun (u : Unit) (_ : Unit) => u) (List.replicate n ()) 0 polls () with
    | .done _ p => phases every wd rest p
    | .stopped p => .stopped p

/-- The whole analysis: execution, then (only if execution finished cleanly) the phases. -/
def pipeline (every : Nat) (wd : Nat → Bool) (vm : List VMIter) (tc : List Nat) : Outcome :=
  match vmLoop every wd vm 0 { polls := 0, stopRecorded := false } with
  | .finished p => phases every wd tc p
  | o => o

def Outcome.isLayout : Outcome → Bool
  | .finished _ => true
  | _ => false

def Outcome.polls : Outcome → Nat
  | .finished p => p | .stopped p => p | .failedWithStop p => p

end SLE.Poll
