/-
M8b — the TEXT layer of the JSON model: serde_json's compact printer (`serde_json::to_string`)
with its string escaping, and a JSON text parser (whitespace, all the standard escapes,
non-negative integers), both over `List Char`.  Core only.
-/
import SLE.Model.Json

namespace SLE.JsonText
open SLE.JsonModel

/-! ### Strings: escaping -/

/-- serde_json's `ESCAPE` table (compact formatter): what one code point becomes inside `"…"`. -/
def escapeChar (c : Char) : List Char :=
  if c = '"' then ['\\', '"']
  else if c = '\\' then ['\\', '\\']
  else if c.toNat = 0x08 then ['\\', 'b']
  else if c.toNat = 0x0C then ['\\', 'f']
  else if c.toNat = 0x0A then ['\\', 'n']
  else if c.toNat = 0x0D then ['\\', 'r']
  else if c.toNat = 0x09 then ['\\', 't']
  else if c.toNat < 0x20 then
    ['\\', 'u', '0', '0', hexChar (c.toNat / 16), hexChar (c.toNat % 16)]
  else [c]

/-- `format_escaped_str_contents`. -/
def escape : List Char → List Char
  | [] => []
  | c :: cs => escapeChar c ++ escape cs

/-! ### Strings: un-escaping -/

/-- The one-letter escapes `\" \\ \/ \b \f \n \r \t`. -/
def unescChar (e : Char) : Option Char :=
  if e = '"' then some '"'
  else if e = '\\' then some '\\'
  else if e = '/' then some '/'
  else if e = 'b' then some (Char.ofNat 0x08)
  else if e = 'f' then some (Char.ofNat 0x0C)
  else if e = 'n' then some (Char.ofNat 0x0A)
  else if e = 'r' then some (Char.ofNat 0x0D)
  else if e = 't' then some (Char.ofNat 0x09)
  else none

/-- `\uXXXX` (either case of hex digits); code points in the surrogate range are rejected. -/
def hex4 (a b c d : Char) : Option Char :=
  match hexVal a, hexVal b, hexVal c, hexVal d with
  | some a, some b, some c, some d =>
    let n := ((a * 16 + b) * 16 + c) * 16 + d
    if 0xD800 ≤ n ∧ n ≤ 0xDFFF then none else some (Char.ofNat n)
  | _, _, _, _ => none

/-- Prepend a decoded code point to the result of parsing the remainder of the string body. -/
def consChar (c : Char) : Option (List Char × List Char) → Option (List Char × List Char)
  | some (s, r) => some (c :: s, r)
  | none => none

/-- The body of a string literal, after the opening quote: the decoded code points and the
input after the closing quote.  Raw control characters (below U+0020) are rejected, as in
serde_json.  Every step consumes at least one character, so `fuel = length` is enough. -/
def strBody : Nat → List Char → Option (List Char × List Char)
  | 0, _ => none
  | _, [] => none
  | fuel + 1, c :: cs =>
    if c = '"' then some ([], cs)
    else if c = '\\' then
      match cs with
      | [] => none
      | e :: cs1 =>
        if e = 'u' then
          match cs1 with
          | a :: b :: c :: d :: cs2 =>
            (match hex4 a b c d with
             | some ch => consChar ch (strBody fuel cs2)
             | none => none)
          | _ => none
        else
          match unescChar e with
          | some ch => consChar ch (strBody fuel cs1)
          | none => none
    else if c.toNat < 0x20 then none
    else consChar c (strBody fuel cs)

def parseStrBody (cs : List Char) : Option (List Char × List Char) := strBody cs.length cs

/-! ### Numbers -/

def isDigit (c : Char) : Bool := 48 ≤ c.toNat && c.toNat ≤ 57

def digitChar (d : Nat) : Char := Char.ofNat (48 + d)

/-- Decimal digits of `n`, most significant first (`fuel > n` is always enough). -/
def natDigits : Nat → Nat → List Char
  | 0, _ => []
  | fuel + 1, n =>
    if n < 10 then [digitChar n] else natDigits fuel (n / 10) ++ [digitChar (n % 10)]

/-- `itoa`: decimal without leading zeros, `0` for zero. -/
def renderNat (n : Nat) : List Char := natDigits (n + 1) n

/-- Read a maximal run of decimal digits. -/
def readDigits : List Char → Nat → Nat × List Char
  | [], acc => (acc, [])
  | c :: cs, acc =>
    if isDigit c then readDigits cs (acc * 10 + (c.toNat - 48)) else (acc, c :: cs)

/-! ### Printer -/

mutual
/-- `serde_json::to_string` (compact formatter). -/
def render : Json → List Char
  | .null => ['n', 'u', 'l', 'l']
  | .num n => renderNat n
  | .str s => '"' :: (escape s.toList ++ ['"'])
  | .arr items => '[' :: (renderItems items ++ [']'])
  | .obj fields => '{' :: (renderFields fields ++ ['}'])
/-- Array elements, comma separated. -/
def renderItems : List Json → List Char
  | [] => []
  | v :: vs => render v ++ (if vs.isEmpty then [] else ',' :: renderItems vs)
/-- Object members `"key":value`, comma separated. -/
def renderFields : List (String × Json) → List Char
  | [] => []
  | (k, v) :: fs =>
    '"' :: (escape k.toList ++ '"' :: ':' :: (render v ++
      (if fs.isEmpty then [] else ',' :: renderFields fs)))
end

/-! ### Parser -/

def isWs (c : Char) : Bool := c = ' ' || c = '\t' || c = '\n' || c = '\r'

def skipWs : List Char → List Char
  | [] => []
  | c :: cs => if isWs c then skipWs cs else c :: cs

mutual
/-- One JSON value (leading whitespace allowed); returns the value and the unread input.
Rejected: `true`/`false`, `-`, and (because the unread input must continue with `,` `]` `}` or
end of text) leading zeros, fractions and exponents. -/
def parseValue : Nat → List Char → Option (Json × List Char)
  | 0, _ => none
  | fuel + 1, cs =>
    match skipWs cs with
    | [] => none
    | c :: r =>
      if isDigit c then
        if c = '0' then some (.num 0, r)
        else some (.num (readDigits (c :: r) 0).1, (readDigits (c :: r) 0).2)
      else if c = 'n' then
        match r with
        | c1 :: c2 :: c3 :: r' =>
          if c1 = 'u' ∧ c2 = 'l' ∧ c3 = 'l' then some (.null, r') else none
        | _ => none
      else if c = '"' then
        match parseStrBody r with
        | some (s, r') => some (.str (String.ofList s), r')
        | none => none
      else if c = '[' then
        if (skipWs r).head? = some ']' then some (.arr [], (skipWs r).tail)
        else
          match parseItems fuel r with
          | some (vs, r') => some (.arr vs, r')
          | none => none
      else if c = '{' then
        if (skipWs r).head? = some '}' then some (.obj [], (skipWs r).tail)
        else
          match parseFields fuel r with
          | some (fs, r') => some (.obj fs, r')
          | none => none
      else none
/-- One or more array elements up to and including the closing `]`. -/
def parseItems : Nat → List Char → Option (List Json × List Char)
  | 0, _ => none
  | fuel + 1, cs =>
    match parseValue fuel cs with
    | none => none
    | some (v, r) =>
      match skipWs r with
      | [] => none
      | c :: r' =>
        if c = ']' then some ([v], r')
        else if c = ',' then
          match parseItems fuel r' with
          | some (vs, r'') => some (v :: vs, r'')
          | none => none
        else none
/-- One or more object members up to and including the closing `}`. -/
def parseFields : Nat → List Char → Option (List (String × Json) × List Char)
  | 0, _ => none
  | fuel + 1, cs =>
    match skipWs cs with
    | [] => none
    | q :: r0 =>
      if q = '"' then
        match parseStrBody r0 with
        | none => none
        | some (k, r1) =>
          match skipWs r1 with
          | [] => none
          | col :: r2 =>
            if col = ':' then
              match parseValue fuel r2 with
              | none => none
              | some (v, r3) =>
                match skipWs r3 with
                | [] => none
                | c :: r4 =>
                  if c = '}' then some ([(String.ofList k, v)], r4)
                  else if c = ',' then
                    match parseFields fuel r4 with
                    | some (fs, r5) => some ((String.ofList k, v) :: fs, r5)
                    | none => none
                  else none
            else none
      else none
end

/-- A complete JSON text: one value, then only whitespace. -/
def parse (t : List Char) : Option Json :=
  match parseValue (t.length + 1) t with
  | some (j, r) => if (skipWs r).isEmpty then some j else none
  | none => none

/-! ### Storage slots as text -/

def renderSlot (s : StorageSlot) : List Char := render (encodeSlot s)

def parseSlot (t : List Char) : Option StorageSlot := (parse t).bind decodeSlot

end SLE.JsonText
