/-
M2 — model of `src/disassembly/disassembler.rs` (`disassemble`) and of
`Opcode::encode` as used by `InstructionStream::as_bytecode`.

Import-free (core only) so that the driver links as a `lean_exe`.
Bytes are `Nat`s; the property theorems quantify over `List UInt8` through `toNat`.
-/
namespace SLE.Disasm

/-- One entry of the instruction stream.  `op b` is any recognised single-byte opcode
(`as_byte() = b`, `encode() = [b]`), `push n d` is `PushN` with its `n` immediate bytes in
code (big-endian) order, `nop` is the placeholder standing for one immediate byte,
`invalid b` is `control::Invalid::new(b)`. -/
inductive Instr where
  | op (b : Nat)
  | push (n : Nat) (data : List Nat)
  | nop
  | invalid (b : Nat)
deriving DecidableEq, Repr

/-- `Opcode::encode`. -/
def Instr.encode : Instr → List Nat
  | .op b => [b]
  | .push n d => (0x5f + n) :: d
  | .nop => []
  | .invalid b => [b]

inductive DErr where
  | emptyBytecode
  | bytecodeTooLarge
  | invalidPushSize (n : Nat)
deriving DecidableEq, Repr

/-- The recognised single-byte opcodes of the big `match` in `disassemble`
(everything that is neither a PUSH1..PUSH32 nor translated to `Invalid`). -/
def isKnown (b : Nat) : Bool :=
  (b ≤ 0x0b) || (0x10 ≤ b && b ≤ 0x1d) || b == 0x20 || (0x30 ≤ b && b ≤ 0x48) ||
  (0x50 ≤ b && b ≤ 0x5b) || b == 0x5f || (0x80 ≤ b && b ≤ 0xa4) ||
  (0xf0 ≤ b && b ≤ 0xf5) || b == 0xfa || b == 0xfd || b == 0xff

def isPush (b : Nat) : Bool := 0x60 ≤ b && b ≤ 0x7f

/-- `mem::PushN::new(n, bytes)`. -/
def pushNew (n : Nat) (bytes : List Nat) : Except DErr Instr :=
  if 0 < n ∧ n ≤ 32 ∧ bytes.length = n then .ok (.push n bytes) else .error (.invalidPushSize n)

/-- The loop-carried variables of `disassemble` (`last_push_start` only feeds error
locations and is dropped). -/
structure PState where
  lastPush : Nat := 0
  pushSize : Nat := 0
  remaining : Nat := 0
  pushBytes : List Nat := []
deriving Repr

def idle : PState := {}

/-- One iteration of the `for (offset, byte)` loop: new state and the opcodes appended. -/
def step (s : PState) (b : Nat) : Except DErr (PState × List Instr) :=
  if s.remaining ≠ 0 then
    let pb := s.pushBytes ++ [b]
    let rem := s.remaining - 1
    if rem = 0 ∧ pb ≠ [] then
      match pushNew s.pushSize pb with
      | .error e => .error e
      | .ok i => .ok (idle, i :: List.replicate s.pushSize .nop)
    else .ok ({ s with pushBytes := pb, remaining := rem }, [])
  else if isPush b then
    .ok ({ s with lastPush := b, pushSize := b - 0x5f, remaining := b - 0x5f }, [])
  else if isKnown b then .ok (s, [.op b])
  else .ok (s, [.invalid b])

/-- The loop. -/
def run : PState → List Nat → Except DErr (List Instr × PState)
  | s, [] => .ok ([], s)
  | s, b :: bs =>
    match step s b with
    | .error e => .error e
    | .ok (s', out) =>
      match run s' bs with
      | .error e => .error e
      | .ok (rest, sf) => .ok (out ++ rest, sf)

/-- The code after the loop (trailing, unterminated push). -/
def finish (s : PState) : Except DErr (List Instr) :=
  if s.pushBytes.length ≠ s.pushSize then
    .ok (.invalid s.lastPush :: s.pushBytes.map .invalid)
  else if s.pushSize ≠ 0 then
    match pushNew s.pushSize s.pushBytes with
    | .error e => .error e
    | .ok i => .ok [i]
  else .ok []

/-- `disassemble`. -/
def disasm (bs : List Nat) : Except DErr (List Instr) :=
  if bs = [] then .error .emptyBytecode
  else if bs.length > 2 ^ 32 then .error .bytecodeTooLarge
  else
    match run idle bs with
    | .error e => .error e
    | .ok (is, s) =>
      match finish s with
      | .error e => .error e
      | .ok tail => .ok (is ++ tail)

/-- `InstructionStream::as_bytecode`. -/
def encodeAll (is : List Instr) : List Nat := is.flatMap Instr.encode

/-! ### Independent specification (the EVM's own forward scan) -/

/-- Which offsets are push immediates, exactly as an EVM computes its code bitmap:
walk instruction by instruction; a PUSHn marks the following `n` bytes (as many as exist). -/
def pushDataMask : List Nat → List Bool
  | [] => []
  | b :: bs =>
    if isPush b then
      false :: (List.replicate (min (b - 0x5f) bs.length) true ++ pushDataMask (bs.drop (b - 0x5f)))
    else false :: pushDataMask bs
termination_by bs => bs.length
decreasing_by all_goals (simp [List.length_drop]; try omega)

/-- Chunk-wise reference disassembly. -/
def spec : List Nat → List Instr
  | [] => []
  | b :: bs =>
    if isPush b then
      if b - 0x5f ≤ bs.length then
        .push (b - 0x5f) (bs.take (b - 0x5f)) :: (List.replicate (b - 0x5f) .nop ++ spec (bs.drop (b - 0x5f)))
      else .invalid b :: bs.map .invalid
    else if isKnown b then .op b :: spec bs
    else .invalid b :: spec bs
termination_by bs => bs.length
decreasing_by all_goals (simp [List.length_drop]; try omega)

end SLE.Disasm
