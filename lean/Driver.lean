import SLE.Driver.Disasm
import SLE.Driver.Containers
import SLE.Driver.Value
import SLE.Driver.Types
import SLE.Driver.JsonD
import SLE.Driver.VMD
import SLE.Driver.UnifyD
import SLE.Driver.PipelineD
import SLE.Driver.TruthD
import SLE.Driver.WatchdogD
import SLE.Driver.LiftD
import SLE.Driver.TCD
import SLE.Driver.EvmD
import SLE.Driver.IdiomD
/-! `sle_driver`: reads `family\tpayload\timpl_answer`, prints `model_answer\toracle_verdict`. -/
open SLE.Driver

def handleLine (tbl : Array (Nat × Nat)) (line : String) : String :=
  match splitTab line with
  | [fam, payload, impl] =>
    let (m, o) := match fam with
      | "disasm" => Disasm.handle payload impl
      | "vmap" => Containers.handleVmap payload impl
      | "ds" => Containers.handleDs payload impl
      | "word" => Value.handleWord payload impl
      | "fold" => Value.handleFold payload impl
      | "size" => Value.handleSize payload impl
      | "merge" => Types.handleMerge payload impl
      | "json" => JsonD.handle payload impl
      | "vm" => EvmD.handleVm payload impl
      | "vm2" => VMD.handle2 payload impl
      | "unify" => UnifyD.handle payload impl
      | "truth" => TruthD.handle payload impl
      | "watchdog" => WatchdogD.handle payload impl
      | "hash" => LiftD.handleHash payload impl
      | "lift" => LiftD.handleLift tbl payload impl
      | "idiom" => IdiomD.handleIdiom tbl payload impl
      | "frag" => IdiomD.handleFrag tbl payload impl
      | "evm" => EvmD.handle payload impl
      | "tc" => TCD.handle tbl payload impl
      | "pipeline" => PipelineD.handle tbl payload impl
      | "orders" => PipelineD.handleOrders payload impl
      | _ => ("unknown-family", "ok")
    m ++ "\t" ++ o
  | _ => "bad-line\tok"

partial def loop (tbl : Array (Nat × Nat)) (h : IO.FS.Stream) (out : IO.FS.Stream) : IO Unit := do
  let line ← h.getLine
  if line.isEmpty then return ()
  let line := (line.dropEndWhile (fun c => c == '\n' || c == '\r')).toString
  -- the 10,000-entry hash table is only built when a request needs it
  let tbl := if tbl.isEmpty && (line.startsWith "lift\t" || line.startsWith "tc\t" || line.startsWith "pipeline\t" || line.startsWith "idiom\t" || line.startsWith "frag\t") then LiftD.slotTable else tbl
  if !line.isEmpty then out.putStrLn (handleLine tbl line)
  loop tbl h out

def main : IO Unit := do
  let out ← IO.getStdout
  loop #[] (← IO.getStdin) out
  out.flush
