#!/bin/sh
# usage: confirm_all.sh <name>:<worktree> ...   (sequentially re-confirms seeded changes)
for pair in "$@"; do
  name="${pair%%:*}"; wt="${pair#*:}"
  /verif/tools/confirm_mutation.sh "$name" "$wt"
done
