#!/bin/sh
# usage: seed_try.sh <worktree-tag> <seeded-name> <prop> [<prop>...]
# copies the sub-agent's change into /verif/seeded/<name>/, applies it to /repo, runs the quick checks, undoes it.
TAG="$1"; NAME="$2"; shift 2
WT=/tmp/mut_$TAG; OUT=/verif/seeded/$NAME
mkdir -p "$OUT"
cp "$WT/mutation.diff" "$OUT/patch.diff"; cp "$WT/tests/mutation_demo.rs" "$OUT/mutation_demo.rs"
git -C /repo apply "$OUT/patch.diff" || { echo "patch does not apply"; exit 2; }
for P in "$@"; do
  /verif/check "$P" > /tmp/seed_${NAME}_$P.log 2>&1; RC=$?
  echo "$NAME $P rc=$RC $(grep -E 'tier=' /tmp/seed_${NAME}_$P.log | cut -c1-160)"
  grep -E "VIOLATION" /tmp/seed_${NAME}_$P.log | head -3
done
git -C /repo checkout -- .
(cd /verif/harness && CARGO_NET_OFFLINE=true cargo build --quiet 2>/dev/null)
git -C /repo status --short | head -3
