#!/usr/bin/env python3
"""usage: mk_mut_prompt.py <prop-id> <tag>  -> writes /tmp/mut_prompt_<tag>.txt for a mutation sub-agent working in /tmp/mut_<tag>
(the prompt holds only the property's text: title, statement, quantifier, anchored files)."""
import json, sys
pid, tag = sys.argv[1], sys.argv[2]
p = next(json.loads(l) for l in open('/verif/properties.jsonl') if json.loads(l)['id'] == pid)
wt = f"/tmp/mut_{tag}"
txt = f"""You are helping test a verification effort by playing the adversary. You have your own scratch git worktree of a Rust library (smlxl/storage-layout-extractor: disassembles EVM bytecode, symbolically executes it, lifts/infers types to recover contract storage layouts) at {wt}. Work ONLY inside {wt} (never touch /repo or /verif; do not read /verif). No network: use `CARGO_NET_OFFLINE=true cargo ... --offline`. The first build takes ~1-2 minutes; the full existing suite is `cd {wt} && CARGO_NET_OFFLINE=true cargo test --workspace --no-fail-fast --offline` (~2-3 min, 387 tests, all pass now).

The semantic property under test:

---
{p['title']}

{p['statement']}

Quantifier: {p['quantifier']['text']}

Anchored in: {', '.join(p['anchors']['files'])}

---

Your task: produce ONE realistic change to the library's non-test source (a plausible refactor slip, optimisation, off-by-one, wrong branch, lost update, mishandled corner — the kind of thing a maintainer could write and a reviewer could miss) that BREAKS this property, while the crate still compiles and the ENTIRE existing test suite still passes unedited. Prefer a change that needs something specific to manifest — an unusual input, a particular multi-step sequence of operations, a boundary value, or two cooperating sites that each look fine alone — NOT one that ordinary use or the existing tests would expose at once. Do not edit tests, Cargo files, or anything guarded by `cfg(smlxl_storage_layout_extractor_verif)` (leave those hook lines alone). Keep the change small (ideally < 25 changed lines).

Deliver, inside {wt}:
1. the change applied to the working tree (uncommitted), and a copy of it as `{wt}/mutation.diff` produced with `git -C {wt} diff -- src > {wt}/mutation.diff` (source only; make sure the diff does not include the demo file);
2. a demonstration `{wt}/tests/mutation_demo.rs` (an integration test using the crate's public API, crate name `storage_layout_extractor`) that FAILS with your change and PASSES without it — verify both directions yourself (`git stash`-free way: `git -C {wt} apply -R mutation.diff` to undo, run the demo, then `git -C {wt} apply mutation.diff` to redo);
3. confirm by running it that the full existing suite still passes WITH your change (ignoring your own demo test).

Final report (plain text): what the change is and why it breaks the property, what specific input/sequence is needed for it to manifest, the exact commands you ran and their outcomes (suite pass count with the change; demo fails with / passes without). If after honest effort you cannot find such a change for this property, say so and explain what you tried.
"""
open(f"/tmp/mut_prompt_{tag}.txt", "w").write(txt)
print(f"/tmp/mut_prompt_{tag}.txt")
