#!/bin/sh
# usage: diffrun.sh <family> <seed> <n> [tier]  — dev helper: gen | eval | driver, summary of diffs and verdicts
F=$1; S=$2; N=$3; T=${4:-quick}
D=$(mktemp -d /tmp/diffrun.XXXXXX)
/verif/harness/target/debug/sle_harness gen $F $S $N $T > $D/req
/verif/harness/target/debug/sle_harness eval < $D/req > $D/impl
/verif/lean/.lake/build/bin/sle_driver < $D/impl > $D/model
python3 - $D <<'PY'
import sys,collections
d=sys.argv[1]
impl=[l.rstrip('\n').split('\t') for l in open(d+'/impl')]
mod=[l.rstrip('\n').split('\t') for l in open(d+'/model')]
print('cases',len(impl),'model lines',len(mod))
nd=0; verd=collections.Counter()
for i,(a,b) in enumerate(zip(impl,mod)):
    v=b[1] if len(b)>1 else 'ok'
    verd[v[:70]]+=1
    if a[2]!=b[0]:
        nd+=1
        if nd<=4:
            x,y=a[2],b[0]
            k=next((j for j in range(min(len(x),len(y))) if x[j]!=y[j]), min(len(x),len(y)))
            print('DIFF case',i,'at',k); print(' impl :', x[max(0,k-100):k+160]); print(' model:', y[max(0,k-100):k+160])
print('diffs',nd)
for k,v in verd.most_common(12): print(v,k)
PY
echo "dir $D"
