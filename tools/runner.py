"""Orchestration for ./check: build, regenerate tables, Lean obligations, axiom audit,
correspondence + oracle runs, decision, replay files, evidence."""
import concurrent.futures as cf
import fcntl
import hashlib
import json
import os
import re
import subprocess
import sys
import time

ROOT = os.path.dirname(os.path.dirname(os.path.abspath(__file__)))
LEAN = os.path.join(ROOT, "lean")
HARNESS_DIR = os.path.join(ROOT, "harness")
HARNESS = os.path.join(HARNESS_DIR, "target", "debug", "sle_harness")
DRIVER = os.path.join(LEAN, ".lake", "build", "bin", "sle_driver")
GEN_DIR = os.path.join(LEAN, "SLE", "Gen")
WORK = os.path.join(ROOT, "work")
ALLOWED_AXIOMS = {"propext", "Classical.choice", "Quot.sound"}
NCPU = os.cpu_count() or 4


def sh(cmd, cwd=None, env=None, timeout=None, stdin=None):
    e = dict(os.environ)
    e["CARGO_NET_OFFLINE"] = "true"
    if env:
        e.update(env)
    p = subprocess.run(cmd, cwd=cwd, env=e, stdin=stdin, stdout=subprocess.PIPE,
                       stderr=subprocess.STDOUT, text=True, timeout=timeout)
    return p.returncode, p.stdout


class Lock:
    def __init__(self, name):
        os.makedirs(WORK, exist_ok=True)
        self.path = os.path.join(WORK, name + ".lock")

    def __enter__(self):
        self.f = open(self.path, "w")
        fcntl.flock(self.f, fcntl.LOCK_EX)
        return self

    def __exit__(self, *a):
        fcntl.flock(self.f, fcntl.LOCK_UN)
        self.f.close()


# ---------------------------------------------------------------------------------- build

def build_harness(log):
    """cargo build of the harness against /repo's *current working tree* (path dependency),
    hooks on (rustflags in harness/.cargo/config.toml)."""
    t = time.time()
    rc, out = sh(["cargo", "build", "--quiet"], cwd=HARNESS_DIR, timeout=1500)
    log["harness_build_s"] = round(time.time() - t, 1)
    if rc != 0:
        log["harness_build_error"] = out[-3000:]
    return rc == 0


def gen_tables(log):
    rc, out = sh([HARNESS, "gen-tables", GEN_DIR], timeout=600)
    digests = {}
    if os.path.isdir(GEN_DIR):
        for f in sorted(os.listdir(GEN_DIR)):
            if f.endswith(".lean"):
                digests[f] = hashlib.sha256(open(os.path.join(GEN_DIR, f), "rb").read()).hexdigest()[:16]
    log["gen_digests"] = digests
    if rc != 0:
        log["gen_tables_error"] = out[-2000:]
    return rc == 0


def lake_build(targets, log):
    t = time.time()
    rc, out = sh(["lake", "build"] + targets, cwd=LEAN, timeout=3000)
    log["lake_build_s"] = round(time.time() - t, 1)
    errors = []
    if rc != 0:
        for m in re.finditer(r"^error: (\S+\.lean):(\d+):(\d+): (.*)$", out, re.M):
            errors.append({"file": m.group(1), "line": int(m.group(2)), "msg": m.group(4)[:200]})
        if not errors:
            errors.append({"file": "?", "line": 0, "msg": out[-1500:]})
    return rc == 0, errors


def theorem_at(relfile, line):
    """Name of the declaration enclosing `line` of a Lean file (nearest preceding theorem/def)."""
    path = os.path.join(LEAN, relfile)
    if not os.path.exists(path):
        return "?"
    name = "?"
    for i, l in enumerate(open(path), 1):
        if i > line:
            break
        m = re.match(r"\s*(?:private\s+)?(?:theorem|lemma|def|example|instance)\s+([^\s:(\[{]+)?", l)
        if m:
            name = m.group(1) or "example"
    return name


FORBIDDEN = re.compile(r"\b(sorry|admit|native_decide|bv_decide|implemented_by|unsafe)\b|^\s*axiom\s|maxHeartbeats 0")


def strip_comments(src):
    src = re.sub(r"/-.*?-/", "", src, flags=re.S)
    src = re.sub(r"--.*", "", src)
    return src


def scan_forbidden(modules):
    """grep the transitive SLE sources (not Gen) for forbidden constructs, comments removed."""
    hits = []
    for dirpath, _, files in os.walk(os.path.join(LEAN, "SLE")):
        for f in files:
            if f.endswith(".lean"):
                p = os.path.join(dirpath, f)
                for i, l in enumerate(strip_comments(open(p).read()).splitlines(), 1):
                    if FORBIDDEN.search(l):
                        hits.append(f"{os.path.relpath(p, LEAN)}:{i}: {l.strip()[:80]}")
    return hits


def audit_axioms(prop, module, theorems, log):
    """`#print axioms` for every property theorem; returns (ok_names, bad: {name: axioms|error})."""
    os.makedirs(WORK, exist_ok=True)
    path = os.path.join(WORK, f"Audit_{prop}.lean")
    with open(path, "w") as f:
        for m in (module if isinstance(module, (list, tuple)) else [module]):
            f.write(f"import {m}\n")
        for t in theorems:
            f.write(f"#print axioms {t}\n")
    rc, out = sh(["lake", "env", "lean", path], cwd=LEAN, timeout=1200)
    ok, bad, seen = [], {}, set()
    found = {}
    for m in re.finditer(r"'([^']+)' depends on axioms: \[([^\]]*)\]", out.replace("\n ", " ")):
        found[m.group(1)] = [a.strip() for a in m.group(2).split(",") if a.strip()]
    for m in re.finditer(r"'([^']+)' does not depend on any axioms", out):
        found[m.group(1)] = []
    for t in theorems:
        if t not in found:
            bad[t] = "not found / did not elaborate"
            continue
        ax = found[t]
        seen.update(ax)
        extra = [a for a in ax if a not in ALLOWED_AXIOMS]
        if extra:
            bad[t] = "axioms: " + ", ".join(extra)
        else:
            ok.append(t)
    log["axioms_seen"] = sorted(seen)
    if rc != 0 and not found:
        log["audit_error"] = out[-1500:]
    return ok, bad


# ------------------------------------------------------------------------- correspondence

CASE_TIMEOUT = int(os.environ.get("VERIF_CASE_TIMEOUT", "90"))


def _run_chunk(args):
    idx, lines = args
    if not lines:
        return []
    inp = "\n".join(lines) + "\n"
    # a case that does not come back is a finding, not a reason to hang the check: the chunk gets a
    # deadline, and a chunk that misses it is bisected down to the single request
    deadline = CASE_TIMEOUT if len(lines) == 1 else max(4 * CASE_TIMEOUT, 3 * len(lines))
    try:
        p1 = subprocess.run([HARNESS, "eval"], input=inp, stdout=subprocess.PIPE, stderr=subprocess.PIPE, text=True,
                            timeout=deadline)
    except subprocess.TimeoutExpired:
        if len(lines) == 1:
            fam, payload = (lines[0].split("\t") + [""])[:2]
            return [(fam, payload, f"TIMEOUT {deadline}s", "?",
                     f"FAIL C03-no-answer-within:{deadline}s ;; C01-no-answer-within:{deadline}s")]
        mid = len(lines) // 2
        return _run_chunk((idx, lines[:mid])) + _run_chunk((idx, lines[mid:]))
    impl_lines = [l for l in p1.stdout.split("\n") if l]
    if p1.returncode != 0 or len(impl_lines) != len(lines):
        # the harness died (abort / stack overflow): bisect to attribute
        if len(lines) == 1:
            fam, payload = (lines[0].split("\t") + [""])[:2]
            return [(fam, payload, f"ABORT rc={p1.returncode}", "?", "FAIL process-died")]
        mid = len(lines) // 2
        return _run_chunk((idx, lines[:mid])) + _run_chunk((idx, lines[mid:]))
    p2 = subprocess.run([DRIVER], input="\n".join(impl_lines) + "\n", stdout=subprocess.PIPE,
                        stderr=subprocess.PIPE, text=True)
    model_lines = [l for l in p2.stdout.split("\n") if l]
    res = []
    if p2.returncode != 0 or len(model_lines) != len(impl_lines):
        if len(lines) == 1:
            fam, payload, impl = (impl_lines[0].split("\t") + ["", ""])[:3]
            return [(fam, payload, impl, f"DRIVER-DIED rc={p2.returncode}", "ok")]
        mid = len(lines) // 2
        return _run_chunk((idx, lines[:mid])) + _run_chunk((idx, lines[mid:]))
    for il, ml in zip(impl_lines, model_lines):
        fam, payload, impl = (il.split("\t") + ["", ""])[:3]
        mp = ml.split("\t")
        model = mp[0]
        verdict = mp[1] if len(mp) > 1 else "ok"
        res.append((fam, payload, impl, model, verdict))
    return res


def run_lines(lines, jobs=NCPU):
    """lines: `family\\tpayload`. Returns list of (family, payload, impl, model, verdict)."""
    if not lines:
        return []
    heavy = lines[0].split("\t")[0] in ("watchdog", "orders", "pipeline")
    nchunks = max(1, min(jobs * 2, len(lines) // (2 if heavy else 50) + 1))
    size = (len(lines) + nchunks - 1) // nchunks
    chunks = [(i, lines[i * size:(i + 1) * size]) for i in range(nchunks)]
    out = []
    with cf.ThreadPoolExecutor(max_workers=jobs) as ex:
        for r in ex.map(_run_chunk, chunks):
            out.extend(r)
    return out


def gen_family(family, seed, n, tier):
    rc, out = sh([HARNESS, "gen", family, str(seed), str(n), tier], timeout=1200)
    if rc != 0:
        raise RuntimeError(f"harness gen {family} failed: {out[-500:]}")
    return [l for l in out.split("\n") if l]


def corpus_lines(family):
    p = os.path.join(ROOT, "corpus", family + ".txt")
    if not os.path.exists(p):
        return []
    return [f"{family}\t{l.strip()}" for l in open(p) if l.strip() and not l.startswith("#")]
