#!/bin/sh
# usage: confirm_mutation.sh <seeded-dir-name> <worktree>
# Re-confirms a seeded change in its scratch worktree: demo fails with it, passes without it,
# the existing suite (without the demo) passes with it. Then removes the worktree.
set -u
NAME="$1"; WT="$2"; OUT="/verif/seeded/$NAME"
export CARGO_NET_OFFLINE=true
cd "$WT" || exit 2
git checkout -q -- . 2>/dev/null
cp "$OUT/mutation_demo.rs" tests/mutation_demo.rs
{
echo "== demo WITHOUT the change (expect pass)"
cargo test --offline --test mutation_demo 2>&1 | grep -E "^test result|FAILED|panicked" | head -5
git apply "$OUT/patch.diff" && echo "== patch applied"
echo "== demo WITH the change (expect fail)"
cargo test --offline --test mutation_demo 2>&1 | grep -E "^test result|FAILED" | head -5
rm tests/mutation_demo.rs
echo "== existing suite WITH the change (expect 387 passed, 0 failed)"
cargo test --workspace --no-fail-fast --offline 2>&1 | grep "test result" | awk '{p+=$4; f+=$6} END {print "passed", p, "failed", f}'
} > "$OUT/confirm.log" 2>&1
cd /; git -C /repo worktree remove --force "$WT"
echo "confirmed $NAME: $(tr '\n' ' ' < $OUT/confirm.log)"
