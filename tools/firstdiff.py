#!/usr/bin/env python3
"""paste impl-file model-file → show requests where impl != model with the first differing position."""
import sys
d=open(sys.argv[1]).read().split('\n'); m=open(sys.argv[2]).read().split('\n')
n=0
for a,b in zip(d,m):
    if not a: continue
    fam,req,impl=(a.split('\t')+['',''])[:3]
    mp=b.split('\t'); model=mp[0]; verdict=mp[1] if len(mp)>1 else ''
    if impl!=model:
        n+=1
        if n>int(sys.argv[3]) if len(sys.argv)>3 else 5: continue
        i=0
        while i<min(len(impl),len(model)) and impl[i]==model[i]: i+=1
        print("REQ  ",req[:200]); print("IMPL ",impl[max(0,i-120):i+160]); print("MODEL",model[max(0,i-120):i+160]); print()
print("diffs:",n)
